package sa

import (
	"fmt"
	"go/token"
	"go/types"
	"sort"
	"strings"

	"golang.org/x/tools/go/ssa"
)

func init() {
	register(&PropertySpec{
		ID:        "C02",
		Technique: "panic-freedom obligations over the unrecovered region discharged by a linear-fact prover (Fourier-Motzkin over SSA integers and lengths); defer-dominance of the recovery hook; loop-exit rule (static analysis)",
		Explain: "The unprotected region is every instruction reachable (call, defer or go) from the connection goroutines, the teardown and the dispatch machinery without passing a frame that has deferred the recovery hook, plus Line.Text/Target/Public on an arbitrary *Line and the default hook itself. Every index, slice, string index, type assertion, division, nil-map update, explicit panic and channel close in that region is an obligation that must be proved from branch facts, SSA definitions, stdlib axioms (Index, SplitN, Fields, append, ...), callee return-site summaries, loop invariants and a local memory value numbering - for all byte strings. Also: every handler invocation is under the recovery hook; a rejected line returns to the read loop; no lock is re-acquired while held on these paths. " +
			"Not decided: nil-pointer dereference in general; panics inside (recovered) handlers are not violations.",
		Assume: []string{"Config.Recover is non-nil and recovers", "stdlib contracts written as axioms (listed in bounds.go)", "Go run-time panic semantics for the covered instruction classes"},
		Run:    runC02,
	})
	register(&PropertySpec{
		ID:        "C11",
		Technique: "linear-fact proof (Fourier-Motzkin with callee summaries and loop invariants) of bounds, piece length and progress; structural partition identity (static analysis)",
		Explain: "Decided for all texts and all SplitLen: no index/slice in splitMessage, indexFragment, splitArgs, Privmsgln can panic; the effective length is the parameter when >= 13 else 450; every appended piece has len <= the effective length; the cut index is >= 1 so the remaining text strictly shrinks (termination, non-empty pieces); each cut appends msg[:i]+\"...\" and continues with msg[i:] for the same msg and i, and the final piece is the remaining msg (lossless partition); the four call sites pass only the text and Config.SplitLen. " +
			"Not decided: which admissible cut point is chosen.",
		Assume: []string{"strings.LastIndex contract (axiom)", "integer arithmetic does not overflow for string lengths"},
		Run:    runC11,
	})
}

// ---------- obligations ----------

type obligation struct {
	In   ssa.Instruction
	Kind string
	Goal GoalFn
	Desc string
}

// panicObligations lists the potentially panicking instructions of fn.
func (c *Ctx) panicObligations(fn *ssa.Function) []obligation {
	var out []obligation
	funcInstrs(fn, func(in ssa.Instruction) {
		switch t := in.(type) {
		case *ssa.IndexAddr:
			x, idx := t.X, t.Index
			out = append(out, obligation{in, "index", func(fc *factCtx) []Lin {
				i := fc.iexpr(idx)
				return []Lin{leExpr(constLin(0), i), ltExpr(i, fc.lexpr(x))}
			}, "0 <= index < len"})
		case *ssa.Index:
			x, idx := t.X, t.Index
			out = append(out, obligation{in, "index", func(fc *factCtx) []Lin {
				i := fc.iexpr(idx)
				return []Lin{leExpr(constLin(0), i), ltExpr(i, fc.lexpr(x))}
			}, "0 <= index < len"})
		case *ssa.Lookup:
			if isStringType(t.X.Type()) {
				x, idx := t.X, t.Index
				out = append(out, obligation{in, "string-index", func(fc *factCtx) []Lin {
					i := fc.iexpr(idx)
					return []Lin{leExpr(constLin(0), i), ltExpr(i, fc.lexpr(x))}
				}, "0 <= index < len(string)"})
			}
		case *ssa.Slice:
			x, lo, hi := t.X, t.Low, t.High
			if _, isArr := arrayLen(x.Type()); isArr && lo == nil && hi == nil {
				return // a[:] of an array cannot fail
			}
			out = append(out, obligation{in, "slice", func(fc *factCtx) []Lin {
				l := constLin(0)
				if lo != nil {
					l = fc.iexpr(lo)
				}
				n := fc.lexpr(x)
				h := n
				if hi != nil {
					h = fc.iexpr(hi)
				}
				return []Lin{leExpr(constLin(0), l), leExpr(l, h), leExpr(h, n)}
			}, "0 <= lo <= hi <= len"})
		case *ssa.TypeAssert:
			if !t.CommaOk {
				out = append(out, obligation{in, "type-assert", nil, "type assertion without ', ok'"})
			}
		case *ssa.BinOp:
			if (t.Op == token.QUO || t.Op == token.REM) && isIntType(t.Y.Type()) {
				if k, ok := constInt(t.Y); ok && k != 0 {
					return
				}
				y := t.Y
				out = append(out, obligation{in, "division", func(fc *factCtx) []Lin {
					return []Lin{leExpr(constLin(1), fc.iexpr(y))}
				}, "divisor > 0"})
			}
		case *ssa.MapUpdate:
			out = append(out, obligation{in, "map-update", nil, "map is not nil"})
		case *ssa.Panic:
			out = append(out, obligation{in, "panic", nil, "explicit panic"})
		case *ssa.Call:
			if b, ok := t.Call.Value.(*ssa.Builtin); ok && b.Name() == "close" {
				out = append(out, obligation{in, "close", nil, "channel closed at most once"})
			}
		}
	})
	return out
}

// discharge proves one obligation.
func (c *Ctx) discharge(p *Prover, ob obligation) (bool, string) {
	switch ob.Kind {
	case "type-assert":
		return false, "unchecked type assertion can panic"
	case "map-update":
		mu := ob.In.(*ssa.MapUpdate)
		return c.mapNonNil(p, mu.Map, ob.In)
	case "panic":
		// builder artefact: the no-case arm of a blocking select
		b := ob.In.Block()
		if len(b.Preds) == 1 {
			if _, ok := b.Preds[0].Instrs[len(b.Preds[0].Instrs)-1].(*ssa.If); ok {
				for _, x := range ob.In.Parent().Blocks {
					for _, y := range x.Instrs {
						if s, ok := y.(*ssa.Select); ok && s.Blocking && blockDom(s.Block(), b) {
							if ms, ok := ob.In.(*ssa.Panic).X.(*ssa.MakeInterface); ok {
								if k, ok := constString(ms.X); ok && k == "blocking select matched no case" {
									return true, "go/ssa artefact: unreachable default arm of a blocking select"
								}
							}
						}
					}
				}
			}
		}
		return false, "explicit panic reachable"
	case "close":
		ch := ob.In.(*ssa.Call).Call.Args[0]
		mk, ok := ch.(*ssa.MakeChan)
		if !ok {
			// the "stop function" idiom: a closure that closes a channel its parent made, handed back to the one
			// caller of the parent, which calls it once
			if okS, whyS := c.stopFuncClose(ob.In, ch); okS {
				return true, whyS
			}
		}
		if !ok || mk.Parent() != ob.In.Parent() {
			return false, "closed channel is not a channel made in this call"
		}
		if !c.OncePer(mk, ob.In) && !(instrDominates(mk, ob.In) && !ReachFrom(ob.In, false, nil)[ob.In]) {
			return false, "close may execute twice for one channel"
		}
		// no send on it
		for _, op := range ChanOps(ob.In.Parent()) {
			if op.Kind == "send" && op.Chan == ch {
				return false, "a send on the closed channel exists"
			}
		}
		return true, "channel made in this call, closed at most once, never sent on"
	}
	return p.ProveAt(ob.In, ob.Goal)
}

// mapNonNil: m is a MakeMap, or a load whose reaching store is a MakeMap.
func (c *Ctx) mapNonNil(p *Prover, m ssa.Value, at ssa.Instruction) (bool, string) {
	switch t := m.(type) {
	case *ssa.MakeMap:
		return true, "map made locally"
	case *ssa.UnOp:
		if t.Op == token.MUL {
			if st := p.reachingStore(t); st != nil {
				if _, ok := st.Val.(*ssa.MakeMap); ok {
					return true, "field holds the map made at " + c.InstrPos(st)
				}
			}
			// guarded by a != nil test of the same location
			for _, cd := range CondsAt(at.Block()) {
				cd = unwrapNot(cd)
				if bo, ok := cd.V.(*ssa.BinOp); ok && (bo.Op == token.NEQ) == cd.True && (bo.Op == token.NEQ || bo.Op == token.EQL) {
					var other ssa.Value
					if isNilConst(bo.Y) {
						other = bo.X
					} else if isNilConst(bo.X) {
						other = bo.Y
					}
					if other != nil && p.rep(other) == p.rep(t) {
						return true, "guarded by != nil"
					}
				}
			}
		}
	}
	if fv, _ := loadedField(m); fv != nil {
		if ok, why := c.fieldAlwaysMade(fv); ok {
			return true, why
		}
	}
	return false, "map operand may be nil"
}

// fieldAlwaysMade: type invariant "map field fv of a module struct is never
// nil": every store to it anywhere in the module stores a freshly made map,
// every allocation of the struct is in a function that stores a made map to
// that allocation's field, and the struct type is never embedded by value in
// another struct, array or package-level variable (no zero value arises).
func (c *Ctx) fieldAlwaysMade(fv *types.Var) (bool, string) {
	if v, ok := c.madeMemo[fv]; ok {
		return v, "type invariant: every " + fv.Name() + " map is made in its constructor and never replaced by anything else"
	}
	if c.madeMemo == nil {
		c.madeMemo = map[*types.Var]bool{}
	}
	c.madeMemo[fv] = false
	var owner *types.Named
	for _, pk := range []*ssa.Package{c.Client, c.State} {
		for _, m := range pk.Members {
			tn, ok := m.(*ssa.Type)
			if !ok {
				continue
			}
			st, ok := tn.Type().Underlying().(*types.Struct)
			if !ok {
				continue
			}
			for i := 0; i < st.NumFields(); i++ {
				if st.Field(i) == fv {
					owner, _ = tn.Type().(*types.Named)
				}
			}
		}
	}
	if owner == nil {
		return false, ""
	}
	// no by-value embedding
	var byValue func(t types.Type, depth int) bool
	byValue = func(t types.Type, depth int) bool {
		if depth > 4 {
			return false
		}
		switch u := t.(type) {
		case *types.Named:
			if u == owner {
				return true
			}
			return byValue(u.Underlying(), depth+1)
		case *types.Struct:
			for i := 0; i < u.NumFields(); i++ {
				if byValue(u.Field(i).Type(), depth+1) {
					return true
				}
			}
		case *types.Array:
			return byValue(u.Elem(), depth+1)
		case *types.Slice:
			return byValue(u.Elem(), depth+1)
		case *types.Map:
			return byValue(u.Elem(), depth+1)
		case *types.Chan:
			return byValue(u.Elem(), depth+1)
		}
		return false
	}
	for _, pk := range []*ssa.Package{c.Client, c.State} {
		for _, m := range pk.Members {
			switch t := m.(type) {
			case *ssa.Type:
				if nt, ok := t.Type().(*types.Named); ok && nt != owner && byValue(nt.Underlying(), 0) {
					return false, ""
				}
			case *ssa.Global:
				if pt, ok := t.Type().(*types.Pointer); ok && byValue(pt.Elem(), 0) {
					return false, ""
				}
			}
		}
	}
	ok := true
	nAlloc := 0
	for _, fn := range c.ModFuncs {
		if fn.Package() != c.Client && fn.Package() != c.State {
			continue
		}
		funcInstrs(fn, func(in ssa.Instruction) {
			switch t := in.(type) {
			case *ssa.Store:
				if f, _ := fieldOf(t.Addr); f == fv {
					if _, isMk := t.Val.(*ssa.MakeMap); !isMk {
						ok = false
					}
				}
				// whole-struct store *p = T{...} would bypass the field store
				if pt, isP := t.Addr.Type().Underlying().(*types.Pointer); isP && types.Identical(pt.Elem(), owner) {
					ok = false
				}
			case *ssa.Alloc:
				pt, _ := t.Type().Underlying().(*types.Pointer)
				if pt == nil || !byValue(pt.Elem(), 0) {
					return
				}
				if !types.Identical(pt.Elem(), owner) {
					ok = false // array / struct containing it
					return
				}
				nAlloc++
				made := false
				for _, ref := range *t.Referrers() {
					if fa, isFA := ref.(*ssa.FieldAddr); isFA {
						if f, _ := fieldOf(fa); f == fv {
							for _, r2 := range *fa.Referrers() {
								if st, isSt := r2.(*ssa.Store); isSt && st.Addr == fa {
									if _, isMk := st.Val.(*ssa.MakeMap); isMk && st.Block() == t.Block() {
										made = true
									}
								}
							}
						}
					}
				}
				if !made {
					ok = false
				}
			}
		})
	}
	if nAlloc == 0 {
		ok = false
	}
	c.madeMemo[fv] = ok
	return ok, "type invariant: every " + fv.Name() + " map is made in its constructor and never replaced by anything else"
}

// ---------- the unprotected region ----------

// protectedCall: cs is dominated, in its function, by a defer of the recovery hook.
func (c *Ctx) protectedCall(cs ssa.CallInstruction) bool {
	for _, d := range c.recoverDefers(cs.Parent()) {
		if instrDominates(d, cs) {
			return true
		}
	}
	return false
}

func (c *Ctx) unprotectedRegion() *Reach {
	a := c.A
	roots := append([]*ssa.Function{}, a.Members...)
	roots = append(roots, a.Teardown, a.TeardownCore, a.ConnDispatch, a.SetDispatch)
	for _, n := range []string{"(*Line).Text", "(*Line).Target", "(*Line).Public", "ParseLine", "(*Conn).LogPanic"} {
		if f := c.Func(c.Client, n); f != nil {
			roots = append(roots, f)
		}
	}
	// every goroutine started anywhere in the library begins with an empty stack: a deferred recovery hook in the
	// frame that executed the go statement (a handler, say) does not cover it
	for _, f := range c.ModFuncs {
		if f.Package() != c.Client && f.Package() != c.State {
			continue
		}
		for _, cs := range CallSites(f) {
			if _, isGo := cs.(*ssa.Go); !isGo {
				continue
			}
			for _, e := range c.Callees(cs) {
				if e.Callee != nil && c.InModuleFn(e.Callee) {
					roots = append(roots, e.Callee)
				}
			}
		}
	}
	return c.Closure(roots, func(from *ssa.Function, e Edge) bool {
		if e.Callee.Package() != c.Client && e.Callee.Package() != c.State && e.Callee.Package() != c.Logging {
			return false
		}
		if c.protectedCall(e.Site) {
			return false
		}
		if e.Site.Common().IsInvoke() {
			// interface dispatch: Handler (protected or forwarder) and Tracker/Logger calls made from
			// unprotected frames are followed (module implementations)
			if c.isHandlerIface(e.Site.Common().Value.Type()) {
				return false // reached only under the hook (checked by R2)
			}
		}
		return true
	})
}

func runC02(c *Ctx) {
	r := c.R
	r.Rule("R1", "every potentially panicking instruction (index, slice, string index, unchecked type assertion, division, nil-map update, explicit panic, close) in the unprotected region is proved safe for all inputs")
	r.Rule("R2", "every invocation of handler code is under a deferred call of Config.Recover, one handler per frame; the default hook calls recover() directly and invokes no method of the recovered value")
	r.Rule("R3", "in the receive goroutine the only exits of the read loop are on the error result of the framing read; a line the parser rejects returns to the loop head; a line it accepts is handed to the inbound queue by a blocking send before the next read")
	r.Rule("R4", "no lock is acquired while already held in any function of the unprotected region or in the tracker (a self-deadlock stops line processing without a panic)")
	r.Rule("R6", "a panic that the recovery hook catches leaves no library lock behind (shared with C16.R5): under every lock of client/state that is released by an explicit Unlock, every potentially panicking instruction, callees included, is proved safe - otherwise one malformed line wedges every later line that needs the lock")
	r.Rule("R8", "no reply the built-in handlers echo from server data can end the connection: the write function of the send goroutine returns an error only when a socket operation returned one (nil, the error of WriteString/Flush, or that of its socket-write helper); the sender treats every error as a dead link")
	r.Rule("R7", "the message splitter terminates on every text (the CTCP handlers echo server-chosen bytes through it): in every loop of the splitting code that continues with a suffix s[i:] of its own text, i >= 1 is proved")
	r.Rule("R5", "the connection goroutines never start with a nil reader/writer or socket: every member spawn is dominated by a store of bufio.NewReadWriter(...) to the buffered-I/O field, and every path of the connect routine from the per-connection reset to the spawning call stores a dialled socket")

	region := c.unprotectedRegion()
	p := c.NewProver()
	nOb := 0
	var names []string
	for _, fn := range region.Order {
		if !c.InModuleFn(fn) || fn.Package() == c.Logging {
			continue
		}
		names = append(names, c.FuncKey(fn))
		r.Funcs[c.FuncKey(fn)] = true
		c.recordSpan(fn)
		obs := c.panicObligations(fn)
		// stable ordinal per kind within the function
		cnt := map[string]int{}
		sort.SliceStable(obs, func(i, j int) bool { return obs[i].In.Pos() < obs[j].In.Pos() })
		for _, ob := range obs {
			nOb++
			cnt[ob.Kind]++
			c.recordObLine(ob.In)
			ok, why := c.discharge(p, ob)
			key := fmt.Sprintf("%s:%s#%d", c.FuncKey(fn), ob.Kind, cnt[ob.Kind])
			if chain := c.ChainString(region.Funcs[fn]); chain != "" && !ok {
				why += " [unprotected via " + chain + "]"
			}
			r.Add("R1", key, c.InstrPos(ob.In), c.FuncKey(fn), ob.Kind+" cannot panic: "+ob.Desc, ok, why)
		}
	}
	r.Floor("R1", "functions in the unprotected region", len(names), 18)
	r.Floor("R1", "panic obligations in the unprotected region", nOb, 35)
	r.Note("unprotected region: %v", names)
	r.Note("prover queries: %d", p.Queries)
	r.Sites = nOb

	// R2
	c.handlerFrameRule("R2")

	// R3
	var producer *ssa.Function
	pf := c.producerFrame()
	if pf != nil {
		producer = pf.Member
	}
	r.Anchor("R3", "receive goroutine", producer != nil)
	if producer != nil {
		var read *ssa.Call
		for _, lr := range c.lineReads(producer) {
			read = lr.Site // the bufio read, or the call of a read helper that hands on its text and error
		}
		r.Anchor("R3", "framing read in the receive goroutine", read != nil)
		if read != nil {
			// every Return must be dominated by the err != nil edge of the read's error result
			funcInstrs(producer, func(in ssa.Instruction) {
				if !isReturn(in) {
					return
				}
				ok := false
				for _, cd := range CondsAt(in.Block()) {
					cd = unwrapNot(cd)
					if bo, isB := cd.V.(*ssa.BinOp); isB && (bo.Op == token.NEQ) == cd.True && (bo.Op == token.NEQ || bo.Op == token.EQL) {
						var other ssa.Value
						if isNilConst(bo.Y) {
							other = bo.X
						} else if isNilConst(bo.X) {
							other = bo.Y
						}
						if ex, isE := other.(*ssa.Extract); isE && ex.Tuple == ssa.Value(read) && ex.Index == 1 {
							ok = true
						}
					}
				}
				r.Add("R3", "loop-exit:"+c.FuncKey(producer), c.InstrPos(in), c.FuncKey(producer), "the read loop is left only on a read error", ok, "return dominated by err != nil of the framing read")
			})
			// the read is re-executed after a rejected line: from the parser call every path reaches the read or a return guarded as above
			nParse := 0
			funcInstrs(producer, func(in ssa.Instruction) {
				call, ok := in.(*ssa.Call)
				// the parser call itself, or the call of the per-line helper that contains it
				isParse := ok && call.Call.StaticCallee() != nil && call.Call.StaticCallee().Name() == "ParseLine"
				if ok && pf.Via != nil && call == pf.Via {
					isParse = true
				}
				if isParse {
					nParse++
					back := ReachFrom(in, false, nil)[read]
					r.Add("R3", "continue-after-parse:"+c.FuncKey(producer), c.InstrPos(in), c.FuncKey(producer), "after parsing (accepted or rejected) control returns to the framing read", back, "read reachable from the parse call")
				}
			})
			r.Floor("R3", "parser call in the receive goroutine", nParse, 1)
			c.handoverRule("R3", producer)
		}
	}

	// R5
	c.connPointersRule("R5")
	// R6, R7
	c.panicSafeLocksRule("R6")
	{
		var lf []*ssa.Function
		for _, f := range c.ModFuncs {
			if f.Package() == c.Client || f.Package() == c.State {
				lf = append(lf, f)
			}
		}
		c.lockReleasedRule("R6", lf)
	}
	c.consumingLoopsRule("R7", p)
	r.Rule("R9", "nothing the event loop waits for can loop for ever on some input: every loop in the built-in handlers, in everything they call (command API, tracker) and in the dispatch machinery terminates by shape - range over a finite collection, counter advancing towards a loop-invariant bound, text that gets strictly shorter, or walk of a linked structure; a retry loop whose exit depends on a lookup or on a user-supplied function is not accepted")
	c.loopVariantRule("R9", p)
	r.Rule("R10", "formatting cannot recurse without end (a stack overflow is fatal, no recover() stops it): in the module's call graph extended with formatting edges - a value boxed into an interface in F whose type has a String / Error / GoString / Format method of the module may have that method run by fmt or a formatting logger - no such method lies on a cycle; the tracker's objects refer to each other, so two String methods printing each other's objects with %s never finish")
	c.formatRecursionRule("R10")
	r.Rule("R11", "every received line is rejected or dispatched whole: once a socket read or write has reported an error, control never comes round to the same call again without the teardown (shared with C06.R9) - ReadString hands back the bytes read so far together with the error (a read deadline, say), and a loop that carries on drops them and parses the rest of the line as a line of its own")
	c.ioErrorsEndRule("R11")
	c.writeErrorsRule("R8")

	// R4
	var funcs []*ssa.Function
	for _, f := range c.ModFuncs {
		if f.Package() == c.Client || f.Package() == c.State {
			funcs = append(funcs, f)
		}
	}
	ls := c.ComputeLocksets(funcs)
	acq := c.Acquires(funcs)
	nRe := 0
	for _, ra := range ls.Reacquisitions(funcs, acq) {
		// capSet.Intersect locks c and reads other (a different object of the same type): instance-insensitive
		// lock names cannot tell them apart; accept only that one documented pattern (receiver vs parameter)
		if c.distinctInstances(ra) {
			continue
		}
		nRe++
		fn := ra.In.Parent()
		r.Add("R4", "reacquire:"+c.FuncKey(fn)+":"+ra.Lock+":"+ra.Via, c.InstrPos(ra.In), c.FuncKey(fn), "lock is not acquired while already held", false, ra.Via+" while "+ra.Lock+" is held")
	}
	r.Add("R4", "no-reacquire", "-", "", "no lock re-acquisition in client and state", nRe == 0, fmt.Sprintf("%d sites", nRe))
}

// distinctInstances: the re-acquisition is a call whose receiver is a
// parameter different from the enclosing method's own receiver (e.g.
// c.Intersect(other) calling other.Has while c.mu is held).
func (c *Ctx) distinctInstances(ra Reacquire) bool {
	cs, ok := ra.In.(ssa.CallInstruction)
	if !ok {
		return false
	}
	fn := ra.In.Parent()
	cc := cs.Common()
	if cc.IsInvoke() || len(cc.Args) == 0 || len(fn.Params) < 2 {
		return false
	}
	pr, ok := cc.Args[0].(*ssa.Parameter)
	return ok && pr != fn.Params[0] && types.Identical(pr.Type(), fn.Params[0].Type())
}

// originsThroughAsserts: origins of v, also looking through type assertions / switches.
func (c *Ctx) originsThroughAsserts(v ssa.Value) []ssa.Value {
	var out []ssa.Value
	seen := map[ssa.Value]bool{}
	var walk func(v ssa.Value)
	walk = func(v ssa.Value) {
		if seen[v] {
			return
		}
		seen[v] = true
		for _, o := range c.Origins(v) {
			switch t := o.(type) {
			case *ssa.TypeAssert:
				walk(t.X)
			case *ssa.Extract:
				if ta, ok := t.Tuple.(*ssa.TypeAssert); ok {
					walk(ta.X)
				} else {
					out = append(out, o)
				}
			default:
				out = append(out, o)
			}
		}
	}
	walk(v)
	return out
}

// ---------------- C11 ----------------

func runC11(c *Ctx) {
	r, a := c.R, c.A
	r.Rule("R1", "no index or slice expression in splitMessage, indexFragment, splitArgs, Privmsgln can go out of bounds")
	r.Rule("R2", "the effective split length is the parameter on the >= 13 edge and the constant 450 otherwise")
	r.Rule("R3", "every value appended to the result has len <= the effective split length")
	r.Rule("R4", "the cut index is >= 1 at every cut (so the remaining text strictly shrinks: termination and non-empty pieces)")
	r.Rule("R5", "each loop iteration appends msg[:i] + \"...\" and continues with msg[i:] for the same msg and i; the final append is the remaining msg; nothing else is appended")
	r.Rule("R6", "Privmsg, Notice, Ctcp, CtcpReply pass only their text and Config.SplitLen to the splitter and send one line per piece")
	r.Rule("R10", "the pieces reach the wire as they were cut: the only data write to the connection is WriteString(line + CRLF) of the write function's own unmodified line (shared with C09.R3) - a sanitiser in the write path (re-encoding, say) changes piece lengths after the split")
	r.Rule("R9", "no piece is dropped between the queue and the wire: every success return of the write function is preceded by the WriteString and Flush of its line (shared with C09.R3) - a filter in the send path, say one that skips a line equal to the previous one, loses pieces of a periodic text")
	r.Rule("R8", "the pieces keep their order on the way to the wire: the only sender on the outbound queue is Raw's own body, by a plain blocking send on every path (shared with C09.R1) - a piece handed to a helper goroutine or a second queue can be overtaken by the next one")
	r.Rule("R7", "a piece is not shortened on its way to the wire: the value Raw puts on the outbound queue is its own parameter cut only at the first CR/LF (shared with C09.R1), so the bound, the marker and the text of every piece survive")
	p := c.NewProver()
	split := c.Func(c.Client, "splitMessage")
	r.Anchor("R1", "splitMessage", split != nil)
	if split == nil {
		return
	}
	n1 := 0
	for _, nme := range []string{"splitMessage", "indexFragment", "splitArgs", "(*Conn).Privmsgln"} {
		fn := c.Func(c.Client, nme)
		if fn == nil {
			r.Anchor("R1", nme, false)
			continue
		}
		r.Funcs[c.FuncKey(fn)] = true
		c.recordSpan(fn)
		cnt := map[string]int{}
		for _, ob := range c.panicObligations(fn) {
			n1++
			cnt[ob.Kind]++
			c.recordObLine(ob.In)
			ok, why := c.discharge(p, ob)
			r.Add("R1", fmt.Sprintf("%s:%s#%d", c.FuncKey(fn), ob.Kind, cnt[ob.Kind]), c.InstrPos(ob.In), c.FuncKey(fn), ob.Kind+" in bounds: "+ob.Desc, ok, why)
		}
	}
	r.Floor("R1", "bounds obligations in the splitting code", n1, 8)

	// the effective split length: the phi merging the parameter and the default
	var eff *ssa.Phi
	param := split.Params[1]
	funcInstrs(split, func(in ssa.Instruction) {
		if ph, ok := in.(*ssa.Phi); ok && isIntType(ph.Type()) {
			hasParam, hasConst, other := false, false, false
			for _, e := range ph.Edges {
				switch {
				case e == ssa.Value(param):
					hasParam = true
				case e == ssa.Value(ph):
				default:
					if _, ok := constInt(e); ok {
						hasConst = true
					} else {
						other = true
					}
				}
			}
			if hasParam && hasConst && !other {
				eff = ph
			}
		}
	})
	r.Anchor("R2", "effective split length (phi of parameter and default)", eff != nil)
	if eff == nil {
		return
	}
	// R2
	for i, e := range eff.Edges {
		pred := eff.Block().Preds[i]
		if e == ssa.Value(eff) {
			continue
		}
		if k, ok := constInt(e); ok {
			r.Add("R2", "default-450", c.InstrPos(eff), c.FuncKey(split), "the default length is 450", k == 450, fmt.Sprintf("constant %d", k))
			// taken exactly when param < 13
			fc := p.newCtx()
			fc.condsAt(pred)
			if cd, okc := edgeCond(pred, eff.Block()); okc {
				fc.cond(cd)
			}
			okLt := fc.entails(leExpr(fc.iexpr(param), constLin(12)))
			r.Add("R2", "default-when-below-13", c.InstrPos(eff), c.FuncKey(split), "the default is used only when the parameter is < 13", okLt, "edge facts imply splitLen <= 12")
		} else {
			fc := p.newCtx()
			fc.condsAt(pred)
			if cd, okc := edgeCond(pred, eff.Block()); okc {
				fc.cond(cd)
			}
			okGe := fc.entails(leExpr(constLin(13), fc.iexpr(param)))
			r.Add("R2", "param-when-at-least-13", c.InstrPos(eff), c.FuncKey(split), "the parameter is kept only when it is >= 13", okGe, "edge facts imply splitLen >= 13")
		}
	}
	// appends to the result
	var appends []*ssa.Call
	funcInstrs(split, func(in ssa.Instruction) {
		if call, ok := in.(*ssa.Call); ok {
			if b, ok := call.Call.Value.(*ssa.Builtin); ok && b.Name() == "append" {
				appends = append(appends, call)
			}
		}
	})
	r.Exactly("R3", "append sites in splitMessage", len(appends), 2)
	nCut := 0
	for i, ap := range appends {
		el := c.singleVarargElem(ap.Call.Args[1])
		if el == nil {
			r.Add("R3", fmt.Sprintf("piece#%d", i+1), c.InstrPos(ap), c.FuncKey(split), "appended piece is a single string", false, "append does not add exactly one string")
			continue
		}
		elem := el
		ok, why := p.ProveAt(ap, func(fc *factCtx) []Lin {
			return []Lin{leExpr(fc.lexpr(elem), fc.iexpr(eff))}
		})
		r.Add("R3", fmt.Sprintf("piece#%d", i+1), c.InstrPos(ap), c.FuncKey(split), "len(piece) <= effective split length", ok, why)
		// R5 shape
		inLoop := c.LoopDepth(ap.Block()) > 0
		if inLoop {
			nCut++
			bo, isCat := elem.(*ssa.BinOp)
			okShape, whyShape := false, "piece is not msg[:i] + \"...\""
			var head *ssa.Slice
			if isCat && bo.Op == token.ADD {
				if s, okc := constString(bo.Y); okc && s == "..." {
					head, _ = bo.X.(*ssa.Slice)
				}
			}
			if head != nil && head.Low == nil && head.High != nil {
				// remainder: a Slice of the same base with Low == head.High, flowing into the loop phi of msg
				var tail *ssa.Slice
				funcInstrs(split, func(in ssa.Instruction) {
					if s, ok := in.(*ssa.Slice); ok && s != head && s.X == head.X && s.High == nil && s.Low == head.High {
						tail = s
					}
				})
				if tail != nil {
					if ph, ok := head.X.(*ssa.Phi); ok && c.IsLoopHeader(ph.Block()) {
						feeds := false
						for _, e := range ph.Edges {
							if e == ssa.Value(tail) {
								feeds = true
							}
						}
						if feeds && c.OncePer(ap, tail) {
							okShape, whyShape = true, "appends msg[:i]+\"...\", continues with msg[i:] of the same msg and i"
						} else {
							whyShape = "the remainder msg[i:] does not become the next msg exactly once per cut"
						}
					}
					// R4
					cut := head.High
					ok4, why4 := p.ProveAt(tail, func(fc *factCtx) []Lin {
						return []Lin{leExpr(constLin(1), fc.iexpr(cut))}
					})
					r.Add("R4", "progress", c.InstrPos(tail), c.FuncKey(split), "cut index >= 1", ok4, why4)
				} else {
					whyShape = "no remainder msg[i:] with the same msg and i"
				}
			}
			r.Add("R5", "cut-shape", c.InstrPos(ap), c.FuncKey(split), "lossless cut: piece and remainder partition msg at one index; marker is \"...\"", okShape, whyShape)
		} else {
			// final piece is the loop phi msg itself, returned
			ph, isPhi := elem.(*ssa.Phi)
			okF := isPhi && c.IsLoopHeader(ph.Block())
			used := false
			for _, ref := range *ap.Referrers() {
				if _, ok := ref.(*ssa.Return); ok {
					used = true
				}
				if st, ok := ref.(*ssa.Store); ok && st.Val == ssa.Value(ap) {
					used = true
				}
			}
			r.Add("R5", "final-piece", c.InstrPos(ap), c.FuncKey(split), "the final piece is the remaining msg, unmarked, and the result of this append is returned", okF && used, "final append of the loop variable")
		}
	}
	r.Exactly("R5", "cut sites inside the loop", nCut, 1)

	// R6: call sites
	n6 := 0
	type splitUse struct {
		cs    ssa.CallInstruction
		txt   ssa.Value
		okLen bool
	}
	var uses6 []splitUse
	for _, cs := range c.Callers(split) {
		arg1 := cs.Common().Args[1]
		fv, _ := loadedField(arg1)
		okLen := fv != nil && fv.Name() == "SplitLen"
		if gc, isCall := arg1.(*ssa.Call); isCall && !okLen && !gc.Call.IsInvoke() {
			// a getter: every return of the called module function is the configured length itself
			if g := gc.Call.StaticCallee(); g != nil && c.InModuleFn(g) && g.Blocks != nil && c.readsOnlyConfig(g, 0) {
				nR, all := 0, true
				funcInstrs(g, func(in ssa.Instruction) {
					if rt, isR := in.(*ssa.Return); isR && len(rt.Results) == 1 {
						nR++
						if f2, _ := loadedField(retVal(rt, 0)); f2 == nil || f2.Name() != "SplitLen" {
							all = false
						}
					}
				})
				okLen = all && nR > 0
			}
		}
		// a wrapper that only supplies the configured length: unexported, returns the splitter's result as it is,
		// passes its own parameter as the text - its callers are the call sites that matter
		w := cs.Parent()
		wrapIdx := -1
		if call, isCall := cs.(*ssa.Call); isCall && w.Object() != nil && !w.Object().Exported() && !addrTaken(w) && len(c.staticCallers(w)) > 0 {
			onlyRet := true
			for _, ref := range *call.Referrers() {
				if _, isR := ref.(*ssa.Return); !isR {
					if _, isD := ref.(*ssa.DebugRef); !isD {
						onlyRet = false
					}
				}
			}
			if pr, isP := cs.Common().Args[0].(*ssa.Parameter); isP && onlyRet && w.Signature.Results().Len() == 1 {
				for i, q := range w.Params {
					if q == pr {
						wrapIdx = i
					}
				}
			}
		}
		if wrapIdx >= 0 {
			for _, s2 := range c.staticCallers(w) {
				if wrapIdx < len(s2.Common().Args) {
					uses6 = append(uses6, splitUse{s2, s2.Common().Args[wrapIdx], okLen})
				}
			}
			continue
		}
		uses6 = append(uses6, splitUse{cs, cs.Common().Args[0], okLen})
	}
	for _, u6 := range uses6 {
		cs, txt, okLen := u6.cs, u6.txt, u6.okLen
		fn := cs.Parent()
		n6++
		okTxt := false
		isText := func(v ssa.Value) bool {
			if _, ok := v.(*ssa.Parameter); ok {
				return true
			}
			if call, ok := v.(*ssa.Call); ok && calleeName(&call.Call) == "strings.Join" {
				if _, ok := call.Call.Args[0].(*ssa.Parameter); ok {
					if s, ok := constString(call.Call.Args[1]); ok && s == " " {
						return true
					}
				}
			}
			return false
		}
		okTxt = isText(txt)
		if pr, ok := txt.(*ssa.Parameter); ok && fn.Object() != nil && !fn.Object().Exported() {
			// an unexported helper shared by the senders: each of them hands over its own text
			for i, q := range fn.Params {
				if q != pr {
					continue
				}
				sites := c.staticCallers(fn)
				okTxt = len(sites) > 0
				for _, s2 := range sites {
					if i >= len(s2.Common().Args) || !isText(s2.Common().Args[i]) {
						okTxt = false
					}
				}
			}
		}
		r.Add("R6", "call:"+c.FuncKey(fn), c.InstrPos(cs), c.FuncKey(fn), "splitter is given the text and Config.SplitLen", okLen && okTxt, fmt.Sprintf("text ok=%v, length is Config.SplitLen=%v", okTxt, okLen))
		// one Raw per piece: a Raw call in the loop ranging over the result, once per element - in this function, or
		// in the unexported helper the pieces are handed to ("send each of these")
		frame := fn
		var pieces ssa.Value
		if v, isV := cs.(ssa.Value); isV {
			pieces = v
		}
		// a call that sends one line: Raw itself, or an unexported method of the client every path of which calls
		// Raw exactly once, outside loops, with a line that holds its own (first) argument
		sendsOne := func(h *ssa.Function) bool {
			if h == nil || h == a.Raw || !c.InModuleFn(h) || h.Package() != c.Client || h.Blocks == nil || (h.Object() != nil && h.Object().Exported()) || addrTaken(h) || len(h.Params) < 2 {
				return false
			}
			var raws []ssa.CallInstruction
			for _, x := range CallSites(h) {
				if x.Common().StaticCallee() == a.Raw {
					raws = append(raws, x)
				}
			}
			if len(raws) != 1 || c.LoopDepth(raws[0].Block()) != 0 {
				return false
			}
			if _, isCall := raws[0].(*ssa.Call); !isCall {
				return false
			}
			if all, _ := AllPathsFromEntryPass(h, func(in ssa.Instruction) bool { return in == ssa.Instruction(raws[0]) }); !all {
				return false
			}
			return c.dependsOn(raws[0].Common().Args[1], h.Params[1], 0)
		}
		collect := func(f *ssa.Function) []ssa.CallInstruction {
			var out []ssa.CallInstruction
			for _, x := range CallSites(f) {
				if x.Common().StaticCallee() == a.Raw || (!x.Common().IsInvoke() && sendsOne(x.Common().StaticCallee())) {
					out = append(out, x)
				}
			}
			return out
		}
		rawCalls := collect(fn)
		if len(rawCalls) == 0 && pieces != nil {
			for _, ref := range *pieces.Referrers() {
				hc, isC := ref.(*ssa.Call)
				if !isC || hc.Call.IsInvoke() {
					continue
				}
				h := hc.Call.StaticCallee()
				if h == nil || !c.InModuleFn(h) || h.Package() != c.Client || (h.Object() != nil && h.Object().Exported()) || addrTaken(h) {
					continue
				}
				for i, arg := range hc.Call.Args {
					if arg == pieces && i < len(h.Params) {
						frame, pieces = h, h.Params[i]
						rawCalls = collect(h)
					}
				}
			}
		}
		okRaw := len(rawCalls) == 1 && c.LoopDepth(rawCalls[0].Block()) == 1
		why := fmt.Sprintf("%d Raw calls", len(rawCalls))
		if okRaw {
			// the sent string contains the range element
			uses := false
			var elemLoad ssa.Value
			funcInstrs(frame, func(in ssa.Instruction) {
				if u, ok := in.(*ssa.UnOp); ok && u.Op == token.MUL {
					if ia, ok := u.X.(*ssa.IndexAddr); ok && ia.X == pieces {
						elemLoad = u
					}
				}
			})
			if elemLoad != nil {
				uses = c.dependsOn(rawCalls[0].Common().Args[1], elemLoad, 0)
				if uses && !c.OncePer(elemLoad.(ssa.Instruction), rawCalls[0]) {
					uses = false
				}
			}
			if !uses {
				okRaw, why = false, "the line sent per iteration does not contain the piece, or is not sent exactly once per piece"
			}
		}
		r.Add("R6", "one-line-per-piece:"+c.FuncKey(fn), c.InstrPos(cs), c.FuncKey(fn), "exactly one line is sent for each piece", okRaw, why)
	}
	r.Floor("R6", "call sites of the splitter", n6, 1)
	// the formatting variants must hand formatted TEXT to the non-formatting sender
	c.formatHygieneRule("R6")
	c.enqueueIdentityRule("R7")
	c.rawSenderRule("R8")
	if wf := c.Func(c.Client, "(*Conn).write"); r.Anchor("R9", "the write function of the send goroutine", wf != nil) {
		c.writeCompleteRule("R9", wf)
		c.socketWritersRule("R10", wf)
	}
}

// singleVarargElem: the variadic slice holds exactly one value; return it.
func (c *Ctx) singleVarargElem(v ssa.Value) ssa.Value {
	els := c.varargElems(v)
	if len(els) == 1 {
		return els[0]
	}
	return nil
}

// dependsOn: v is computed (by concatenation / phi / conversions) from target.
func (c *Ctx) dependsOn(v, target ssa.Value, depth int) bool {
	if v == target {
		return true
	}
	if depth > 8 {
		return false
	}
	switch t := v.(type) {
	case *ssa.BinOp:
		return c.dependsOn(t.X, target, depth+1) || c.dependsOn(t.Y, target, depth+1)
	case *ssa.Phi:
		for _, e := range t.Edges {
			if c.dependsOn(e, target, depth+1) {
				return true
			}
		}
	case *ssa.ChangeType:
		return c.dependsOn(t.X, target, depth+1)
	case *ssa.Convert:
		return c.dependsOn(t.X, target, depth+1)
	case *ssa.UnOp:
		if t.Op != token.MUL {
			return false
		}
		// a record kept in a local variable: the record (or the field read) holds the target when something
		// stored into it does
		var al *ssa.Alloc
		field := -1
		switch a := t.X.(type) {
		case *ssa.Alloc:
			al = a
		case *ssa.FieldAddr:
			if a2, ok := a.X.(*ssa.Alloc); ok {
				al, field = a2, a.Field
			}
		}
		if al == nil {
			return false
		}
		for _, ref := range *al.Referrers() {
			switch r := ref.(type) {
			case *ssa.Store:
				if r.Addr == ssa.Value(al) && c.dependsOn(r.Val, target, depth+1) {
					return true
				}
			case *ssa.FieldAddr:
				if field >= 0 && r.Field != field {
					continue
				}
				for _, r2 := range *r.Referrers() {
					if st, ok := r2.(*ssa.Store); ok && st.Addr == ssa.Value(r) && c.dependsOn(st.Val, target, depth+1) {
						return true
					}
				}
			}
		}
		return false
	case *ssa.Call:
		// a module function (also one reached through a function-typed parameter) whose every result contains
		// the parameter the target is passed as
		if _, isB := t.Call.Value.(*ssa.Builtin); isB || t.Call.IsInvoke() {
			return false
		}
		edges := c.Callees(t)
		if len(edges) == 0 {
			return false
		}
		for _, e := range edges {
			if e.Callee == nil || !c.InModuleFn(e.Callee) {
				return false
			}
			okCallee := false
			for i, arg := range t.Call.Args {
				if i >= len(e.Callee.Params) || !c.dependsOn(arg, target, depth+1) {
					continue
				}
				all, n := true, 0
				funcInstrs(e.Callee, func(in ssa.Instruction) {
					if rt, ok := in.(*ssa.Return); ok && len(rt.Results) == 1 {
						n++
						if !c.dependsOn(retVal(rt, 0), e.Callee.Params[i], depth+1) {
							all = false
						}
					}
				})
				if all && n > 0 {
					okCallee = true
				}
			}
			if !okCallee {
				return false
			}
		}
		return true
	}
	return false
}

// recordSpan / recordObLine feed the thorough tier's coverage cross-check
// against the compiler's list of bounds checks it could not eliminate.
func (c *Ctx) recordSpan(fn *ssa.Function) {
	syn := fn.Syntax()
	if syn == nil {
		return
	}
	a, b := c.Fset.Position(syn.Pos()), c.Fset.Position(syn.End())
	rel := c.Pos(syn.Pos())
	if i := strings.Index(rel, ":"); i >= 0 {
		rel = rel[:i]
	}
	c.R.RegionSpans = append(c.R.RegionSpans, Span{File: rel, Start: a.Line, End: b.Line, Func: c.FuncKey(fn)})
}

func (c *Ctx) recordObLine(in ssa.Instruction) {
	pos := c.InstrPos(in)
	parts := strings.Split(pos, ":")
	if len(parts) >= 2 {
		c.R.ObLines[parts[0]+":"+parts[1]] = true
	}
}

// connPointersRule (C02.R5): members are spawned only after io and sock were set.
func (c *Ctx) connPointersRule(rule string) {
	r, a := c.R, c.A
	n := 0
	var spawner *ssa.Function
	for _, m := range a.Members {
		for _, g := range c.GoSites(m) {
			n++
			spawner = g.Parent()
			ok := true
			for _, iof := range a.IOFields {
				iof := iof
				if !c.domInterproc(g.Parent(), g, func(in ssa.Instruction) bool {
					s, isS := in.(*ssa.Store)
					if !isS {
						return false
					}
					if fv, _ := fieldOf(s.Addr); fv != iof {
						return false
					}
					call, isC := s.Val.(*ssa.Call)
					if !isC {
						return false
					}
					switch calleeName(&call.Call) {
					case "bufio.NewReadWriter", "bufio.NewReader", "bufio.NewWriter", "bufio.NewReaderSize", "bufio.NewWriterSize":
						return true
					}
					return false
				}, 0) {
					ok = false
				}
			}
			r.Add(rule, "io-set-before-spawn:"+c.FuncKey(m), c.InstrPos(g), c.FuncKey(g.Parent()), "the goroutine starts only after the buffered reader/writer was created", ok, "store of bufio.NewReadWriter(...) to the I/O field dominates the go statement")
		}
	}
	r.Floor(rule, "member spawn sites", n, 3)
	if spawner == nil {
		return
	}
	// in the connect routine: from entry, every path to the call that spawns passes a store to sock of a non-nil-by-contract value
	cn := a.Connect
	var spawnCalls []ssa.Instruction
	reach := c.Closure([]*ssa.Function{cn}, func(from *ssa.Function, e Edge) bool {
		return !e.Site.Common().IsInvoke() && e.Kind != EdgeGo && e.Callee.Package() == c.Client
	})
	if spawner == cn {
		for _, m := range a.Members {
			for _, g := range c.GoSites(m) {
				spawnCalls = append(spawnCalls, g)
			}
		}
	} else {
		for _, cs := range CallSites(cn) {
			cal := cs.Common().StaticCallee()
			if cal == nil {
				continue
			}
			sub := c.Closure([]*ssa.Function{cal}, func(from *ssa.Function, e Edge) bool {
				return !e.Site.Common().IsInvoke() && e.Kind != EdgeGo && e.Callee.Package() == c.Client
			})
			if _, ok := sub.Funcs[spawner]; ok {
				spawnCalls = append(spawnCalls, cs)
			}
		}
	}
	_ = reach
	isSockStore := func(in ssa.Instruction) bool {
		s, isS := in.(*ssa.Store)
		if !isS {
			return false
		}
		if fv, _ := fieldOf(s.Addr); fv != a.Sock {
			return false
		}
		return !isNilConst(s.Val)
	}
	for i, sc := range spawnCalls {
		ok := SetDominates(cn, isSockStore, sc)
		r.Add(rule, fmt.Sprintf("sock-set-before-spawn#%d", i+1), c.InstrPos(sc), c.FuncKey(cn), "the goroutines are started only after a socket was stored", ok, "every path to the spawning call stores a non-nil-constant value to the socket field")
	}
	r.Floor(rule, "calls in the connect routine that start the goroutines", len(spawnCalls), 1)
	// nil stores to io/sock only happen in the per-connection reset that precedes them (C06.R5 places it after the refusals)
	for _, fn := range c.clientFuncs() {
		funcInstrs(fn, func(in ssa.Instruction) {
			s, isS := in.(*ssa.Store)
			if !isS || !isNilConst(s.Val) {
				return
			}
			fv, base := fieldOf(s.Addr)
			if !a.isIO(fv) && fv != a.Sock {
				return
			}
			if c.allOriginsLocalAlloc(base, fn) {
				return
			}
			// must be reachable only from the connect routine, before the socket store
			okC, why := c.afterRefusals(fn, in)
			if okC {
				// and a socket store follows on every path to the spawn (checked above); the nil store must not be after the spawning call
				for _, sc := range spawnCalls {
					if fn == cn && ReachFrom(sc, false, nil)[in] {
						okC, why = false, "reset of the pointer can happen after the goroutines were started"
					}
				}
			}
			r.Add(rule, "nil-store:"+c.FuncKey(fn)+":"+fv.Name(), c.InstrPos(in), c.FuncKey(fn), "the I/O pointers are reset only by connect initialisation", okC, why)
		})
	}
}

// domInterproc: an instruction satisfying pred executes before `at` on every
// path - within fn, or (when fn has callers in package client) before every
// call site of fn, recursively. Test-only entry points (no callers) fail.
func (c *Ctx) domInterproc(fn *ssa.Function, at ssa.Instruction, pred func(ssa.Instruction) bool, depth int) bool {
	if SetDominates(fn, pred, at) {
		return true
	}
	if depth > 4 {
		return false
	}
	sites := c.Callers(fn)
	if len(sites) == 0 {
		return false
	}
	for _, cs := range sites {
		if _, isGo := cs.(*ssa.Go); isGo {
			return false
		}
		if !c.domInterproc(cs.Parent(), cs, pred, depth+1) {
			return false
		}
	}
	return true
}

// consumingLoopsRule: in the splitting code every loop-carried text that is
// replaced by a suffix of itself advances by at least one byte.
func (c *Ctx) consumingLoopsRule(rule string, p *Prover) {
	r := c.R
	n := 0
	for _, name := range []string{"splitMessage", "indexFragment", "splitArgs"} {
		fn := c.Func(c.Client, name)
		if fn == nil {
			continue
		}
		roots := c.Closure([]*ssa.Function{fn}, func(from *ssa.Function, e Edge) bool {
			return e.Kind == EdgeCall && !e.Site.Common().IsInvoke() && e.Callee.Package() == c.Client
		})
		for _, f := range roots.Order {
			if !c.InModuleFn(f) {
				continue
			}
			funcInstrs(f, func(in ssa.Instruction) {
				ph, ok := in.(*ssa.Phi)
				if !ok || !c.IsLoopHeader(ph.Block()) || !hasLen(ph.Type()) {
					return
				}
				for _, e := range ph.Edges {
					sl, isSl := e.(*ssa.Slice)
					if !isSl || sl.X != ssa.Value(ph) || sl.Low == nil || sl.High != nil {
						continue
					}
					n++
					low := sl.Low
					ok4, why4 := p.ProveAt(sl, func(fc *factCtx) []Lin {
						return []Lin{leExpr(constLin(1), fc.iexpr(low))}
					})
					r.Add(rule, fmt.Sprintf("advance:%s:%s", c.FuncKey(f), ph.Comment), c.InstrPos(sl), c.FuncKey(f), "the loop continues with a strictly shorter text (cut index >= 1)", ok4, why4)
				}
			})
		}
	}
	r.Floor(rule, "self-consuming loops in the splitting code", n, 1)
}

// stopFuncClose: close(fv) in a closure F with fv a free variable bound, in the
// parent P, to a channel P makes; the closure's only use in P is being
// returned; every caller of P uses that result only by calling it, outside
// loops and once on any path; nothing sends on the channel.
func (c *Ctx) stopFuncClose(in ssa.Instruction, ch ssa.Value) (bool, string) {
	// captured variables are cells: the closure loads the channel from the free variable
	if u, isU := ch.(*ssa.UnOp); isU && u.Op == token.MUL {
		ch = u.X
	}
	fv, ok := ch.(*ssa.FreeVar)
	if !ok {
		return false, ""
	}
	f := in.Parent()
	par := f.Parent()
	if par == nil {
		return false, ""
	}
	// exactly this one close in the closure, outside loops
	if c.LoopDepth(in.Block()) != 0 {
		return false, ""
	}
	idx := -1
	for i, q := range f.FreeVars {
		if q == fv {
			idx = i
		}
	}
	var mc *ssa.MakeClosure
	n := 0
	funcInstrs(par, func(x ssa.Instruction) {
		if m, isM := x.(*ssa.MakeClosure); isM && m.Fn == ssa.Value(f) {
			mc = m
			n++
		}
	})
	if n != 1 || idx < 0 || idx >= len(mc.Bindings) {
		return false, ""
	}
	bnd := mc.Bindings[idx]
	if cell, isCell := bnd.(*ssa.Alloc); isCell && cell.Parent() == par {
		// the variable's cell: written exactly once, with the channel
		var st *ssa.Store
		nSt := 0
		for _, ref := range *cell.Referrers() {
			if s2, isS := ref.(*ssa.Store); isS && s2.Addr == ssa.Value(cell) {
				st = s2
				nSt++
			}
		}
		if nSt != 1 {
			return false, ""
		}
		bnd = st.Val
		// no other closure may close or replace it: cell uses are this binding, the store and loads
		for _, ref := range *cell.Referrers() {
			switch t := ref.(type) {
			case *ssa.Store, *ssa.DebugRef:
			case *ssa.UnOp:
				for _, r2 := range *t.Referrers() {
					if cl, isC := r2.(*ssa.Call); isC {
						if b, isB := cl.Call.Value.(*ssa.Builtin); isB && b.Name() == "close" {
							return false, ""
						}
					}
				}
			case *ssa.MakeClosure:
				if t != mc {
					return false, ""
				}
			default:
				return false, ""
			}
		}
	}
	mk, isMk := bnd.(*ssa.MakeChan)
	if !isMk || mk.Parent() != par || c.LoopDepth(mc.Block()) != 0 {
		return false, ""
	}
	for _, op := range ChanOps(par) {
		if op.Kind == "send" && op.Chan == ssa.Value(mk) {
			return false, ""
		}
	}
	for _, ref := range *mc.Referrers() {
		switch ref.(type) {
		case *ssa.Return, *ssa.DebugRef:
		default:
			return false, ""
		}
	}
	// other closures / goroutines of P may receive from the channel, not close it
	for _, ref := range *mk.Referrers() {
		if cl, isC := ref.(*ssa.Call); isC {
			if b, isB := cl.Call.Value.(*ssa.Builtin); isB && b.Name() == "close" {
				return false, ""
			}
		}
	}
	sites := c.staticCallers(par)
	if len(sites) == 0 || addrTaken(par) {
		return false, ""
	}
	for _, cs := range sites {
		v, isV := cs.(*ssa.Call)
		if !isV {
			return false, ""
		}
		calls := 0
		for _, ref := range *v.Referrers() {
			switch t := ref.(type) {
			case *ssa.DebugRef:
			case *ssa.Call:
				if t.Call.Value != ssa.Value(v) || c.LoopDepth(t.Block()) != 0 || ReachFrom(t, false, nil)[t] {
					return false, ""
				}
				calls++
			default:
				return false, ""
			}
		}
		if calls != 1 {
			return false, ""
		}
	}
	return true, "stop function: closes the channel its parent made; its one caller invokes it once"
}
