// goircsa: static checker deciding the goirc properties C01..C20.
package main

import (
	"flag"
	"fmt"
	"os"
	"sort"
	"sync"

	"goircsa/internal/sa"
)

func main() {
	prop := flag.String("property", "", "property id (C01..C20) or 'all'")
	tier := flag.String("tier", "quick", "quick | thorough")
	repo := flag.String("repo", "/repo", "repository root")
	verif := flag.String("verif", "/verif", "verification directory")
	explain := flag.String("explain", "", "print a violation report file")
	quiet := flag.Bool("q", false, "quiet")
	outDir := flag.String("out", "", "directory for evidence/ and reports/ (default: -verif)")
	selftest := flag.String("selftest", "", "run stored variants: property id, 'all', or a variant id")
	flag.Parse()
	if *explain != "" {
		b, err := os.ReadFile(*explain)
		if err != nil {
			fmt.Fprintln(os.Stderr, err)
			os.Exit(2)
		}
		os.Stdout.Write(b)
		fmt.Println()
		return
	}
	if *tier != "quick" && *tier != "thorough" {
		if t := os.Getenv("VERIF_TIER"); t == "quick" || t == "thorough" {
			*tier = t
		} else {
			fmt.Fprintln(os.Stderr, "bad -tier")
			os.Exit(2)
		}
	}
	if *selftest != "" {
		os.Exit(runSelftest(*selftest, *repo, *verif))
	}
	if *prop == "all" {
		var ids []string
		for id := range sa.Specs {
			ids = append(ids, id)
		}
		sort.Strings(ids)
		rc := 0
		for _, id := range ids {
			if c := sa.Main(sa.Options{Repo: *repo, VerifDir: *verif, Property: id, Tier: *tier, Quiet: *quiet, OutDir: *outDir}); c > rc {
				rc = c
			}
		}
		os.Exit(rc)
	}
	os.Exit(sa.Main(sa.Options{Repo: *repo, VerifDir: *verif, Property: *prop, Tier: *tier, Quiet: *quiet, OutDir: *outDir}))
}

func runSelftest(which, repo, verif string) int {
	vs, err := sa.LoadVariants(verif)
	if err != nil {
		fmt.Fprintln(os.Stderr, err)
		return 2
	}
	var sel []sa.Variant
	for _, v := range vs {
		if which == "all" || v.Property == which || v.ID == which {
			sel = append(sel, v)
		}
	}
	res := make([]sa.VariantResult, len(sel))
	var wg sync.WaitGroup
	sem := make(chan struct{}, 8)
	for i := range sel {
		wg.Add(1)
		go func(i int) {
			defer wg.Done()
			sem <- struct{}{}
			defer func() { <-sem }()
			res[i] = sa.RunVariant(sa.Options{Repo: repo, VerifDir: verif}, sel[i])
		}(i)
	}
	wg.Wait()
	bad, limits := 0, 0
	for i, r := range res {
		mark := "ok  "
		if r.Expect == "limit" && r.OK {
			mark = "LIMIT"
			limits++
		}
		if !r.OK {
			mark = "FAIL"
			bad++
		}
		fmt.Printf("%s %-10s %-4s expect=%-6s got=%-7s rules=%v want=%s %s\n", mark, r.ID, sel[i].Property, r.Expect, r.Outcome, r.Rules, sel[i].Rule, trunc(r.Detail, 300))
	}
	if limits > 0 {
		fmt.Printf("%d variants, %d failures, %d documented false alarms (LIMIT: refactorings beyond the rules' idioms, see DESIGN.md 8.6)\n", len(res), bad, limits)
	} else {
		fmt.Printf("%d variants, %d failures\n", len(res), bad)
	}
	if bad > 0 {
		return 1
	}
	return 0
}

func trunc(s string, n int) string {
	if len(s) > n {
		return s[:n] + "..."
	}
	return s
}
