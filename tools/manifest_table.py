claim("C03", "goroutine-topology and awaited-call-chain rules over SSA (static analysis)",
      "Decides, for all schedules, the topology that makes foreground delivery serial and in wire order: single in-body producer with '\\n' framing, single dispatching consumer, every edge from the consumer to a foreground/internal handler awaited (call, defer or WaitGroup-joined go), CONNECTED placed after the 001 handler's state updates, DISCONNECTED after Wait. Go's channel FIFO and WaitGroup semantics then give the property; tests cannot quantify over interleavings.",
      "Trusted: go/ssa, Go channel/WaitGroup semantics, bufio framing. Not decided: bufio's own correctness; REGISTER ordering (outside the claim).",
      "DESIGN.md 5/C03")
claim("C04", "key-normalisation value flow, lockset over handler-set state, snapshot-outside-lock and once-per-element path rules (static analysis)",
      "Decides for all histories and schedules the structural discipline of the handler set: lower-cased keys on every map operation, list/map state accessed only under the set's RWMutex (writes exclusively), no re-acquisition while held, handlers run unlocked on a snapshot freshly built under the lock, exactly one goroutine per snapshot element, and every frame down to the handler invokes it on all paths. These are necessary conditions of 'exactly once, case-insensitive, deadlock-free'; they are not the list algebra.",
      "Not decided: the linked-list algebra over add/remove histories (heap-shape property). Trusted: go/ssa, sync.RWMutex semantics.",
      "DESIGN.md 5/C04")
claim("C05", "dominance of the internal dispatch phase; who-may-mutate-the-tracker call-graph rule (static analysis)",
      "Pure ordering property, decided for all schedules: the internal set (holding every state handler, registered only through the internal wrapper) is dispatched and awaited before the background and foreground sets, and every mutating Tracker call in package client is reached only by awaited edges from internal handlers or lifecycle functions.",
      "Relies on C03's awaited-chain rules (checked separately). Trusted: go/ssa, WaitGroup semantics.",
      "DESIGN.md 5/C05")
claim("C09", "single-producer-path / single-consumer pipeline topology and who-may-write-the-socket rules (static analysis)",
      "Decides the pipeline topology from which exactly-once in-order transmission follows for all interleavings: Raw's own blocking send is the only producer, the single send goroutine the only forwarding consumer, each dequeued line goes unmodified to exactly one write which does WriteString(line+CRLF) then Flush, nothing else is handed the socket or its writer, and the queue is replaced only after the already-connected refusal.",
      "Not decided: bufio/net byte-level behaviour (trusted); behaviour after the link drops (outside the claim).",
      "DESIGN.md 5/C09")
claim("C14", "lockset analysis over every access to tracker state; one-critical-section and no-reacquire path rules; deep freshness with escape analysis of every returned snapshot (static analysis)",
      "Decided for all histories and interleavings: every access to tracker state holds the tracker mutex, each exported method is one critical section and never re-acquires, every returned pointer/map is a fresh allocation that does not escape into tracker state and is recursively private, and no caller storage is retained. Mutual exclusion over whole methods gives linearizability; freshness gives snapshot privacy.",
      "Trusted: Go memory model for sync.Mutex, go/ssa; aliasing is field/type-based (no pointer analysis is available), adequate because tracker objects are only reachable through the tracker.",
      "DESIGN.md 5/C14")
claim("C15", "copy-per-invocation value-flow chain and type-driven deep-copy completeness of Line.Copy (static analysis)",
      "Decided for all lines and schedules: every handler invocation receives the single-use result of its own Line.Copy (or a forwarded wrapper parameter), and Copy replaces every reference-typed field of Line - enumerated from go/types, so a new slice/map field is caught - by a fresh element-wise copy on every path where the source may be non-nil.",
      "Trusted: go/ssa; time.Time treated as immutable.",
      "DESIGN.md 5/C15")
claim("C16", "defer-dominance per handler frame; joined/detached goroutine edges (static analysis)",
      "Decided for all handler programs: every invocation of handler code is dominated by a deferred call of Config.Recover in a frame that invokes exactly one handler; each handler has its own WaitGroup-joined goroutine; the default hook calls recover() directly; the background dispatch is a detached go.",
      "Assumes Config.Recover is non-nil and recovers (the default is checked). Custom non-recovering hooks are outside what can be decided.",
      "DESIGN.md 5/C16")
