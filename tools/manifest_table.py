claim("C03", "goroutine-topology and awaited-call-chain rules over SSA (static analysis)",
      "Decides, for all schedules, the topology that makes foreground delivery serial and in wire order: single in-body producer with '\\n' framing, single dispatching consumer, every edge from the consumer to a foreground/internal handler awaited (call, defer or WaitGroup-joined go), CONNECTED placed after the 001 handler's state updates, DISCONNECTED after Wait. Go's channel FIFO and WaitGroup semantics then give the property; tests cannot quantify over interleavings.",
      "Trusted: go/ssa, Go channel/WaitGroup semantics, bufio framing. Not decided: bufio's own correctness; REGISTER ordering (outside the claim).",
      "DESIGN.md 5/C03")
