claim("C03", "goroutine-topology and awaited-call-chain rules over SSA (static analysis)",
      "Decides, for all schedules, the topology that makes foreground delivery serial and in wire order: single in-body producer with '\\n' framing, single dispatching consumer, every edge from the consumer to a foreground/internal handler awaited (call, defer or WaitGroup-joined go), CONNECTED placed after the 001 handler's state updates, DISCONNECTED after Wait. Go's channel FIFO and WaitGroup semantics then give the property; tests cannot quantify over interleavings.",
      "Trusted: go/ssa, Go channel/WaitGroup semantics, bufio framing. Not decided: bufio's own correctness; REGISTER ordering (outside the claim).",
      "DESIGN.md 5/C03")
claim("C04", "key-normalisation value flow, lockset over handler-set state, snapshot-outside-lock and once-per-element path rules (static analysis)",
      "Decides for all histories and schedules the structural discipline of the handler set: lower-cased keys on every map operation, list/map state accessed only under the set's RWMutex (writes exclusively), no re-acquisition while held, handlers run unlocked on a snapshot freshly built under the lock, exactly one goroutine per snapshot element, and every frame down to the handler invokes it on all paths. These are necessary conditions of 'exactly once, case-insensitive, deadlock-free'; they are not the list algebra.",
      "Not decided: the linked-list algebra over add/remove histories (heap-shape property). Trusted: go/ssa, sync.RWMutex semantics.",
      "DESIGN.md 5/C04")
claim("C05", "dominance of the internal dispatch phase; who-may-mutate-the-tracker call-graph rule (static analysis)",
      "Pure ordering property, decided for all schedules: the internal set (holding every state handler, registered only through the internal wrapper) is dispatched and awaited before the background and foreground sets, and every mutating Tracker call in package client is reached only by awaited edges from internal handlers or lifecycle functions.",
      "Relies on C03's awaited-chain rules (checked separately). Trusted: go/ssa, WaitGroup semantics.",
      "DESIGN.md 5/C05")
claim("C09", "single-producer-path / single-consumer pipeline topology and who-may-write-the-socket rules (static analysis)",
      "Decides the pipeline topology from which exactly-once in-order transmission follows for all interleavings: Raw's own blocking send is the only producer, the single send goroutine the only forwarding consumer, each dequeued line goes unmodified to exactly one write which does WriteString(line+CRLF) then Flush, nothing else is handed the socket or its writer, and the queue is replaced only after the already-connected refusal.",
      "Not decided: bufio/net byte-level behaviour (trusted); behaviour after the link drops (outside the claim).",
      "DESIGN.md 5/C09")
claim("C14", "lockset analysis over every access to tracker state; one-critical-section and no-reacquire path rules; deep freshness with escape analysis of every returned snapshot (static analysis)",
      "Decided for all histories and interleavings: every access to tracker state holds the tracker mutex, each exported method is one critical section and never re-acquires, every returned pointer/map is a fresh allocation that does not escape into tracker state and is recursively private, and no caller storage is retained. Mutual exclusion over whole methods gives linearizability; freshness gives snapshot privacy.",
      "Trusted: Go memory model for sync.Mutex, go/ssa; aliasing is field/type-based (no pointer analysis is available), adequate because tracker objects are only reachable through the tracker.",
      "DESIGN.md 5/C14")
claim("C15", "copy-per-invocation value-flow chain and type-driven deep-copy completeness of Line.Copy (static analysis)",
      "Decided for all lines and schedules: every handler invocation receives the single-use result of its own Line.Copy (or a forwarded wrapper parameter), and Copy replaces every reference-typed field of Line - enumerated from go/types, so a new slice/map field is caught - by a fresh element-wise copy on every path where the source may be non-nil.",
      "Trusted: go/ssa; time.Time treated as immutable.",
      "DESIGN.md 5/C15")
claim("C16", "defer-dominance per handler frame; joined/detached goroutine edges (static analysis)",
      "Decided for all handler programs: every invocation of handler code is dominated by a deferred call of Config.Recover in a frame that invokes exactly one handler; each handler has its own WaitGroup-joined goroutine; the default hook calls recover() directly; the background dispatch is a detached go.",
      "Assumes Config.Recover is non-nil and recovers (the default is checked). Custom non-recovering hooks are outside what can be decided.",
      "DESIGN.md 5/C16")
claim("C08", "abstract interpretation of strings (byte exclusion, truncation-at-separator, constant prefix with follow set) + who-may-send / who-may-write rules (static analysis)",
      "Decided for all argument strings: the only value ever enqueued is Raw's parameter truncated at the first CR or LF (stdlib SplitN axiom), the only socket write is that dequeued value + CRLF followed by one Flush, nothing else is handed the socket, and every string an exported command method passes to Raw begins with that method's verb followed by a space or the end, so caller text cannot start a second command or change the verb.",
      "Trusted: the SplitN contract written as an axiom; bufio writes verbatim. A hand-written cutting loop would be undecided and raise an alarm (accepted risk).",
      "DESIGN.md 5/C08")
claim("C20", "whole-module taint analysis over SSA with a prefix-refined sanitiser (static analysis)",
      "Decided for all passwords, loggers and sessions: no value labelled by Config.Pass / the Pass parameter reaches any argument of any call into package logging (all call sites in client and state are sinks), except through the one accepted sanitiser - the false edge of HasPrefix(v, C) when every tainted string's constant prefix begins with C; no Config/Conn value is logged; no other logging channel exists in the library.",
      "Trusted: go/ssa; aliasing is field/type/container-based; results of unknown external calls are tainted when an argument is, except listed payload-free I/O calls.",
      "DESIGN.md 5/C20")
claim("C06", "exactly-once path rules, atomic test-and-clear under the connection mutex, write-after-refusal dominance (static analysis)",
      "Decided for all fault moments and coincidences: one REGISTER dispatch, only under err == nil of the connect routine; DISCONNECTED only after the connected flag was tested and cleared under one uninterrupted hold of Conn.mu (so exactly one of any number of concurrent closers proceeds); the flag is set only under that mutex and no error return follows it; every queue-consuming / socket-using goroutine calls the teardown on every exit; every state write, tracker wipe and go statement of the connect routine comes after both refusals; Close on a disconnected client only unlocks.",
      "Not decided: the REGISTER/DISCONNECTED order when the link drops during REGISTER (excluded by the property). Trusted: go/ssa, sync.RWMutex semantics.",
      "DESIGN.md 5/C06")
claim("C07", "blocking-operation census with release classes over the region Close waits for; stale-teardown typestate; WaitGroup accounting (static analysis)",
      "Liveness is not decidable in general; decided is its release discipline for all backlogs and causes: every blocking operation executable by a goroutine that Close waits for (members before Done, awaited callees, built-in handlers, command API) is classified and must have a release that Close performs before waiting (context cancel, socket close, timer, inner join, drainer that outlives Wait, lock not held across Wait); no member calls the identity-less teardown after Done; queue consumers call the teardown on every exit; every successful connect makes fresh queues and wipes the tracker; Add/Done/spawn counts balance on every path. Four stale-Close sites (finding F12) are listed in known_findings.json.",
      "Assumes opaque user handlers return when library calls return and that listed library calls (logging, fmt, strings, SASL) do not block. No numeric time bound is claimed.",
      "DESIGN.md 5/C07")
claim("C02", "panic-freedom obligations over the unrecovered region discharged by a linear-fact prover (Fourier-Motzkin over SSA integers and lengths); defer-dominance of the recovery hook; loop-exit rule (static analysis)",
      "Decided for all byte strings: every index, slice, string index, unchecked type assertion, division, nil-map update, explicit panic and close in the region reachable from the connection goroutines, teardown and dispatch machinery without passing a recovered frame (plus Text/Target/Public on an arbitrary *Line and the default hook) is proved safe from branch facts, SSA definitions, stdlib axioms, callee return-site summaries, loop invariants and local memory value numbering; every handler invocation is under the recovery hook; a rejected line returns to the read loop; no lock is re-acquired while held. An unproven obligation is an alarm (sound: unproven => reported).",
      "Not decided: nil-pointer dereference in general (no whole-program points-to available). Trusted: the stdlib axioms listed in bounds.go, go/ssa. Panics inside recovered handlers are not violations.",
      "DESIGN.md 5/C02")
claim("C11", "linear-fact proof (Fourier-Motzkin with callee summaries and loop invariants) of bounds, piece length and progress; structural partition identity (static analysis)",
      "Decided for all texts and all SplitLen values: bounds safety of the splitting code, the 13/450 threshold, len(piece) <= effective SplitLen for every appended piece, cut index >= 1 (termination and non-empty pieces), the lossless cut shape msg[:i]+\"...\" / msg[i:] on the same msg and i with the remaining msg as final piece, and the four call sites passing text and Config.SplitLen and sending one line per piece.",
      "Not decided: which admissible cut point is chosen (not part of the claim). Trusted: strings.LastIndex contract as an axiom; no integer overflow for string lengths.",
      "DESIGN.md 5/C11")
