#!/bin/bash
# refactor_eval.sh <diff> : apply a behaviour-preserving refactoring to a scratch copy of /repo and run all
# 20 quick checks on it; prints the properties that raise an alarm (each is a false alarm to triage).
d=$1
tmp=$(mktemp -d /tmp/refeval.XXXXXX)
mkdir -p $tmp/repo $tmp/out
(cd /repo && git archive HEAD) | tar -x -C $tmp/repo
(cd $tmp/repo && git apply --whitespace=nowarn $d) || { echo "APPLY-FAIL $d"; rm -rf $tmp; exit 2; }
res=""
for i in $(seq -w 1 20); do
  ( /verif/bin/goircsa -q -property C$i -repo $tmp/repo -verif /verif -out $tmp/out > $tmp/C$i.log 2>&1; echo $? > $tmp/C$i.rc ) &
  if (( $(jobs -r | wc -l) >= 8 )); then wait -n; fi
done
wait
for i in $(seq -w 1 20); do
  if [ "$(cat $tmp/C$i.rc)" != "0" ]; then res="$res C$i"; echo "--- C$i on $d"; grep -v KNOWN-FINDING $tmp/C$i.log | grep -v "^VIOLATION" | cut -c1-420 | head -6; fi
done
echo "RESULT $d alarms:[$res ]"
rm -rf $tmp
