#!/bin/bash
# scratch_eval.sh <abs diff> [props...]: evaluate a patch on a scratch copy of /repo (does not touch /repo).
# Prints alarms per property. Scratch copy is removed afterwards.
set -u
export GOFLAGS=-mod=mod GOPROXY=off GOSUMDB=off GOTOOLCHAIN=local; unset GOWORK
d=$(mktemp -d /tmp/scr.XXXXXX)
rsync -a --exclude .git /repo/ $d/repo/
( cd $d/repo && git init -q . && git apply --whitespace=nowarn "$1" ) || { echo NOAPPLY; rm -rf $d; exit 2; }
shift
props="$@"; [ -z "$props" ] && props="C01 C02 C03 C04 C05 C06 C07 C08 C09 C10 C11 C12 C13 C14 C15 C16 C17 C18 C19 C20"
mkdir -p $d/out
al=""
for p in $props; do
  out=$(${BIN:-/verif/bin/goircsa} -q -repo $d/repo -out $d/out -property $p 2>&1); rc=$?
  if [ $rc -ne 0 ]; then al="$al $p"; echo "--- $p"; echo "$out" | grep -v "^KNOWN\|^VIOLATION" | cut -c1-700 | head -8; fi
done
echo "RESULT alarms:[$al ]"
rm -rf $d
