#!/usr/bin/env python3
"""Print the markdown table of DESIGN.md section 8.1 from /verif/seeded/*/meta.json."""
import json, os
root='/verif/seeded'
def key(i):
    p,k=i.split('-'); return (p,int(k))
print('| seed | caught by | what the change does |')
print('|------|-----------|----------------------|')
for i in sorted((d for d in os.listdir(root) if os.path.isfile(f'{root}/{d}/meta.json')), key=key):
    m=json.load(open(f'{root}/{i}/meta.json'))
    rules='/'.join(r.strip() for r in m.get('caught_by_rule','').split()) or '(missed)'
    what=m.get('what','').replace('|','/').replace('\n',' ')
    for pre in (f"{m['property']} seeded change 1: ", f"{m['property']} seeded change 2: ", 'Seed 1: ','Seed 2: ','Change 1: ','Change 2: '):
        if what.startswith(pre): what=what[len(pre):]
    print(f"| {i} | {m['property']}.{rules} | {what[:125]} |")
