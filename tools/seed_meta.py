#!/usr/bin/env python3
"""Create/refresh /verif/seeded/<id>/meta.json. Runs the static check of each seed's property on a scratch
copy of /repo with the patch applied (through `goircsa -selftest`) and records whether it fires."""
import json, os, re, subprocess, glob, sys
root='/verif/seeded'
ids=sorted(d for d in os.listdir(root) if os.path.isfile(f'{root}/{d}/patch.diff'))
for i in ids:
    mp=f'{root}/{i}/meta.json'
    m=json.load(open(mp)) if os.path.exists(mp) else {}
    prop=i.split('-')[0]
    readme=open(f'{root}/{i}/README.md').read() if os.path.exists(f'{root}/{i}/README.md') else ''
    title=next((l.strip('# ').strip() for l in readme.splitlines() if l.strip()), '')
    m.setdefault('id', i); m['property']=prop
    m.setdefault('what', title[:300])
    for log in sorted(glob.glob(f'/tmp/seed*.out/{prop}/*.confirm.log')):
        res=[l for l in open(log) if l.startswith(f'RESULT {i} ')]
        if res: m['confirmed']=res[-1].strip()
    m.setdefault('needs_to_manifest', 'see README.md (sub-agent description): a specific input, interleaving or multi-step sequence')
    m['ran']='tools/confirm_seed.sh: git apply in a scratch worktree of /repo; go build; full suite x3 (a test counts as broken only if it fails in all runs; TestPing ignored); demo x2 with the patch (must fail) and x2 without (must pass)'
    m['expect_static']='fire'   # provisional, corrected below
    json.dump(m,open(mp,'w'),indent=1)
out=subprocess.run(['/verif/bin/goircsa','-selftest','all'],capture_output=True,text=True).stdout
open('/tmp/selftest_all.log','w').write(out)
for line in out.splitlines():
    mm=re.match(r'(ok|FAIL)\s+seed-(\S+)\s+(\S+)\s+expect=\S+\s+got=(\S+)\s+rules=\[(.*?)\]\s+want=\S*\s*(.*)',line)
    if not mm: continue
    i=mm.group(2); got=mm.group(4); rules=mm.group(5); detail=mm.group(6)
    mp=f'{root}/{i}/meta.json'; m=json.load(open(mp))
    if got=='fired':
        m['expect_static']='fire'; m['caught_by_rule']=rules; m['static_report']=detail[:400]
    else:
        m['expect_static']='miss'; m['caught_by_rule']=''; m['static_report']='not detected by the static rules of '+m['property']+' ('+got+')'
    json.dump(m,open(mp,'w'),indent=1)
    print(i, got, rules)
