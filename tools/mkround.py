#!/usr/bin/env python3
"""mkround.py <n> <letters>: prepare round n of blind testing: scratch worktrees /tmp/seed<n>/Cnn and
/tmp/refac<n>/<letter> of /repo HEAD plus one prompt file per worktree (<dir>.prompt.txt) for fresh sub-agents.
The prompts contain only the property text (seeds) or an area of the code (refactorings), the titles of earlier
changes (to get different ones) and the offline environment notes - nothing about the checker."""
import json, glob, os, subprocess, sys
n=sys.argv[1]; letters=sys.argv[2].split(',')
S=f'/tmp/seed{n}'; R=f'/tmp/refac{n}'
os.makedirs(S,exist_ok=True); os.makedirs(R,exist_ok=True)
props={json.loads(l)['id']:json.loads(l) for l in open('/verif/properties.jsonl')}
for pid in props:
    if not os.path.isdir(f'{S}/{pid}'):
        subprocess.run(['git','-C','/repo','worktree','add','-q','--detach',f'{S}/{pid}','HEAD'],check=True)
for a in letters:
    if not os.path.isdir(f'{R}/{a}'):
        subprocess.run(['git','-C','/repo','worktree','add','-q','--detach',f'{R}/{a}','HEAD'],check=True)
t0='''You are helping test a verification effort for the Go IRC client library fluffle/goirc. You have your own scratch git worktree of the repository at @S@/@ID@ (work ONLY there; do not read or write /repo or /verif, and do not touch other directories under /tmp).

TASK: produce TWO independent source changes ("seeded bugs") to the library (non-test .go files under client/ or state/), each of which BREAKS the property below while (a) still compiling and (b) still passing the ENTIRE existing test suite unchanged. For each change also write a demonstration (a Go test file added to the package) that FAILS with the change applied and PASSES on the unchanged tree. Prefer realistic regressions a maintainer could plausibly introduce (a refactor gone subtly wrong, an "optimisation", a missed case, a new feature with a flaw, a well-meant robustness tweak) over sabotage, and prefer changes that need something SPECIFIC to manifest - a particular interleaving, a fault at a particular point, a multi-step sequence of operations, an unusual input, or two cooperating sites that each look fine alone. The two changes must use different mechanisms and different code sites. Do not simply revert one of the recent "fix:" commits in git log.

Earlier rounds already produced the following changes for this property; yours must be DIFFERENT in mechanism and code site from all of them:
@PREV@
Look for breakages in parts of the behaviour these did not touch: other clauses of the property statement, other functions among the anchors, code the property silently depends on although it is NOT among the anchors (helpers, constructors, configuration handling, accessor methods, the other package), interactions between two functions, boundary values, configuration variants (state tracking on/off, Flood on/off, SSL/proxy, PingFreq, SASL, capability negotiation), behaviour across reconnects, data that is correct when written but changed later.

ENVIRONMENT (no network): prefix every shell command with
  export GOFLAGS=-mod=mod GOPROXY=off GOSUMDB=off GOTOOLCHAIN=local; unset GOWORK;
Run the suite with:  cd @S@/@ID@ && go test -vet=off -count=1 -timeout 120s ./...
(TestPing in package client is flaky on the unchanged tree; tests use 1 ms timing windows and other tests may flake under load: a test only counts as broken if it fails in each of 3 runs.) Always pass -timeout to go test. Do NOT use `git stash` (the stash is shared by all worktrees of this repository and other people work in sibling worktrees): save work with `git diff > file`, restore with `git checkout -- .` and `git apply file`. Demonstrations must finish within 60 s, fail with high probability (>= 9 of 10 runs) with the change and always pass without it. Test helpers in client/connection_test.go (setUp, mockNetConn) may be used by in-package demos; the mock socket's Write blocks once 20 lines are unread and is not released by Close. A known pre-existing defect: a goroutine of a finished connection may call Close() late and tear down an immediately re-established connection; demos that reconnect should wait ~100 ms after DISCONNECTED.

DELIVERABLES - create @S@/@ID@/out/ (put a file out/go.mod containing "module out" so `go test ./...` ignores it) containing, for k = 1, 2:
  out/k/patch.diff     - `git diff` of the library change ONLY (must apply with `git apply` to a clean checkout of HEAD)
  out/k/demo/<file>_test.go - ONE demonstration test file (package clause `package client` or `package state`; it will be copied into that package directory)
  out/k/README.md      - first line: a one-sentence title of the change; then what was changed, why it breaks the property, what is needed for it to manifest, the exact commands you ran and their results
Before finishing: restore the worktree to a clean state (git checkout -- . ; remove untracked files except out/), re-apply each patch alone from clean to confirm everything, then clean again. If you can only find one good change, deliver one and say so. Report briefly what you delivered.

PROPERTY @ID@: @TITLE@

Statement: @STMT@

Quantifier: @Q@

Code anchors (line numbers approximate): @ANCH@
'''
for pid,p in props.items():
    prev=[]
    for f in sorted(glob.glob('/verif/seeded/%s-*/meta.json'%pid)):
        m=json.load(open(f)); prev.append(' - '+m['what'][:220])
    t=t0.replace('@S@',S).replace('@ID@',pid).replace('@PREV@','\n'.join(prev)).replace('@TITLE@',p['title']).replace('@STMT@',p['statement']).replace('@Q@',p['quantifier']['text']).replace('@ANCH@',json.dumps(p['anchors']['mechanism']))
    open(f'{S}/{pid}.prompt.txt','w').write(t)
done=[open(f).read().strip().replace('\n',' ')[:160] for f in sorted(glob.glob('/verif/selftest/refactors/*.md'))]
rt='''You are helping test a static-analysis effort for the Go IRC client library fluffle/goirc. You have your own scratch git worktree of the repository at @R@/@ID@ (work ONLY there; do not read or write /repo or /verif or other directories under /tmp).

TASK: produce SIX independent, realistic, BEHAVIOUR-PRESERVING refactorings of the library's non-test Go code, focused on: @FOCUS@. Each must be the kind of clean-up, restructuring or modernisation a maintainer would plausibly make and accept. Earlier rounds already produced the refactorings summarised at the end of this prompt; yours should be DIFFERENT from those and from each other. Favour refactorings that change the SHAPE of control flow, data flow, call structure or data representation while keeping behaviour (for example: introducing or removing an intermediate function, method or small unexported type; passing a struct or a closure instead of several parameters; converting between switch/if/table; loop restructuring; replacing a flag variable by control flow or vice versa; reordering independent statements; caching a field in a local; naming results; splitting or merging files; replacing one stdlib idiom by an equivalent one; generalising two near-duplicate functions into one; moving a check from callers into the callee or back; early returns versus nesting; defer versus explicit clean-up where equivalent). Each must keep EXACTLY the same observable behaviour for every input and schedule (same bytes on the wire, same events in the same order, same locking discipline and goroutine structure, same panics-or-not, same log records) - be careful and conservative; if in doubt, choose another refactoring.

Each refactoring must compile (`go build ./...`), add no new `go vet ./client ./state` complaints, and pass the entire existing test suite. Default toolchain go1.23; go.mod says go 1.13 so avoid generics and the slices/maps packages.

ENVIRONMENT (no network): prefix every shell command with
  export GOFLAGS=-mod=mod GOPROXY=off GOSUMDB=off GOTOOLCHAIN=local; unset GOWORK;
Run the suite with:  cd @R@/@ID@ && go test -vet=off -count=1 -timeout 120s ./...   (TestPing is flaky on the unchanged tree; tests use 1 ms windows and may flake under load - a test only counts as broken if it fails in each of 3 runs.) Always pass -timeout. Do NOT use `git stash` (it is shared with sibling worktrees): use `git diff > file; git checkout -- .; git apply file`.

DELIVERABLES: create @R@/@ID@/out/ (with out/go.mod containing "module out") with, for k = 1..6:
  out/k.diff   - `git diff` of refactoring k ALONE against clean HEAD (must apply with `git apply`; include new files)
  out/k.md     - two or three sentences: what was refactored and why behaviour is unchanged
Before finishing restore the worktree to a clean state and verify each k.diff applies alone from clean, builds, and passes the suite. Report briefly what you delivered.

EARLIER REFACTORINGS (do not repeat):
'''+'\n'.join(' - '+d for d in done)
focus=['client/connection.go (Conn, Config, NewConfig, Client, the Connect path, postConnect, send/recv/runLoop/ping, write, rateLimit, Close, drain, Me, Enable/DisableStateTracking, String)',
'client/line.go and client/commands.go (ParseLine, parseUserHost, Line methods, argslen, cutNewLines, splitMessage, indexFragment, splitArgs, Raw and all command methods)',
'client/dispatch.go, client/handlers.go, client/state_handlers.go (handler sets and nodes, dispatch, LogPanic, capability/SASL handling, capSet, h_001/h_433/h_NICK/h_CTCP/h_PING/h_REGISTER, all state handlers)',
'the state package (state/tracker.go, state/nick.go, state/channel.go)']
rename_focus=[
 'package client, and this time mostly RENAMING and REORGANISING: give clearer names to UNEXPORTED identifiers (functions, methods, types, struct fields, constants, local helper closures, receiver names, files) and move declarations between files, keeping every exported name and all behaviour; mix in a few small structural clean-ups. Spread the six refactorings over connection.go, dispatch.go, handlers.go, state_handlers.go, line.go and commands.go; each refactoring should rename several related identifiers consistently (for example the handler-set types and their fields and methods; the flood-control fields and rateLimit/write; the split helpers; the capability-set type and its methods; the internal registration helpers)',
 'package state, and this time mostly RENAMING and REORGANISING: give clearer names to UNEXPORTED identifiers (the stateTracker/nick/channel types, their fields such as nicks/chans/me/lookup, unexported methods such as addNick/delNick/addChannel/delChannel/parseModes/isOn, helper functions, constants, receiver names, files) and move declarations between files, keeping every exported name (the Tracker interface, Nick, Channel, ChanMode, NickMode, ChanPrivs and their exported fields/methods) and all behaviour; mix in a few small structural clean-ups. Each refactoring should rename several related identifiers consistently']
for i,a in enumerate(letters):
    f=focus[i%4]
    if len(sys.argv)>3 and sys.argv[3]=='rename' and i>=2:
        f=rename_focus[i-2]
    open(f'{R}/{a}.prompt.txt','w').write(rt.replace('@R@',R).replace('@ID@',a).replace('@FOCUS@',f))
print('ok', len(props), 'seed prompts,', len(letters), 'refactor prompts;', len(done), 'earlier refactorings listed')
