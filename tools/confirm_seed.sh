#!/bin/bash
# confirm_seed.sh <Cnn> <k>: confirm a sub-agent's seeded change in its scratch worktree and
# store it under /verif/seeded/<Cnn>-<k>/ (patch.diff, demo/, meta.json, README.md).
set -u
export GOFLAGS=-mod=mod GOPROXY=off GOSUMDB=off GOTOOLCHAIN=local; unset GOWORK
P=$1; K=$2; T=${3:-$K}     # property, index in the agent's out/, index under /verif/seeded
ROOT=${SEEDROOT:-/tmp/seed}
WT=$ROOT/$P
SRC=$ROOT.out/$P/$K
mkdir -p $ROOT.out/$P
if [ -d $WT/out ]; then rm -rf $ROOT.out/$P; mv $WT/out $ROOT.out/$P; fi
cd $WT || exit 2
git checkout -q -- . ; git clean -fdq
DEMO=$(find $SRC/demo -type f | head -1)
BASE=$(basename $DEMO .txt)
PKG=$(grep -m1 '^package ' $DEMO | awk '{print $2}' | sed 's/_test$//')
[ "$PKG" = "state" ] || PKG=client
TESTS=$(grep -ho '^func Test[A-Za-z0-9_]*' $DEMO | sed 's/func //' | paste -sd'|')
log=$ROOT.out/$P/$K.confirm.log; : > $log
res() { echo "$1" | tee -a $log; }
git apply --whitespace=nowarn $SRC/patch.diff || { res "APPLY-FAIL"; exit 1; }
go build ./... >>$log 2>&1 || { res "BUILD-FAIL"; git checkout -q -- .; exit 1; }
suite_ok=1
# 1 ms timing windows make single runs flaky under load: a test counts as broken only if it fails in all 3 runs
f1=$(go test -vet=off -count=1 -timeout 180s ./... 2>&1 | grep -E '^--- FAIL' | grep -v 'TestPing ' | awk '{print $3}' | sort -u)
f2=$(go test -vet=off -count=1 -timeout 180s ./... 2>&1 | grep -E '^--- FAIL' | grep -v 'TestPing ' | awk '{print $3}' | sort -u)
f3=$(go test -vet=off -count=1 -timeout 180s ./... 2>&1 | grep -E '^--- FAIL' | grep -v 'TestPing ' | awk '{print $3}' | sort -u)
echo "suite failures run1=[$f1] run2=[$f2] run3=[$f3]" | tr '\n' ' ' >>$log; echo >>$log
always=$(comm -12 <(echo "$f1") <(echo "$f2") | comm -12 - <(echo "$f3") | grep -v '^$')
[ -n "$always" ] && { suite_ok=0; echo "consistently failing: $always" >>$log; }
cp $DEMO $PKG/$BASE
dfail=0
for i in 1 2; do
  go test -vet=off -count=1 -timeout 120s -run "^($TESTS)\$" ./$PKG >>$log 2>&1 || dfail=$((dfail+1))
done
git checkout -q -- . ; 
dpass=0
for i in 1 2; do
  go test -vet=off -count=1 -timeout 120s -run "^($TESTS)\$" ./$PKG >>$log 2>&1 && dpass=$((dpass+1))
done
rm -f $PKG/$BASE; git clean -fdq
res "RESULT $P-$T suite_ok=$suite_ok demo_fail_with_patch=$dfail/2 demo_pass_without=$dpass/2 tests=$TESTS"
if [ $suite_ok = 1 ] && [ $dfail = 2 ] && [ $dpass = 2 ]; then
  D=/verif/seeded/$P-$T; mkdir -p $D/demo
  cp $SRC/patch.diff $D/patch.diff; cp $DEMO $D/demo/$BASE.txt; cp $SRC/README.md $D/README.md
  echo CONFIRMED >> $log
fi
