#!/bin/bash
# seed_try.sh <property> <patch.diff>: does the property's static check fire on this patch?
P=$1; d=$2
tmp=$(mktemp -d /tmp/seedtry.XXXXXX); mkdir -p $tmp/repo $tmp/out
(cd /repo && git archive HEAD) | tar -x -C $tmp/repo
(cd $tmp/repo && git apply --whitespace=nowarn $d) || { echo "APPLY-FAIL $d"; rm -rf $tmp; exit 2; }
/verif/bin/goircsa -q -property $P -repo $tmp/repo -verif /verif -out $tmp/out > $tmp/log 2>&1; rc=$?
if [ $rc = 1 ]; then echo "FIRED $P $d"; grep -v "KNOWN-FINDING\|^VIOLATION" $tmp/log | cut -c1-330 | head -4; else echo "SILENT(rc=$rc) $P $d"; fi
rm -rf $tmp
