#!/usr/bin/env python3
"""Regenerates /verif/MANIFEST.json from the table below (kept in one place so the
claimed list, techniques and not_applicable reasons stay consistent)."""
import json, sys, os

ENV = "GOFLAGS=-mod=mod GOPROXY=off GOSUMDB=off GOTOOLCHAIN=local GOWORK=off"

# id -> (technique, level text, level note, design ref)
CLAIMED = {}
NOT_APPLICABLE = {}

def claim(pid, technique, text, note, ref):
    CLAIMED[pid] = (technique, text, note, ref)

exec(open(os.path.join(os.path.dirname(__file__), "manifest_table.py")).read())

checks = []
for pid in sorted(CLAIMED):
    tech, text, note, ref = CLAIMED[pid]
    checks.append({
        "property_id": pid,
        "quick_cmd": "./bin/goircsa -property %s -tier quick" % pid,
        "thorough_cmd": "./bin/goircsa -property %s -tier thorough" % pid,
        "evidence_file": "/verif/evidence/%s.json" % pid,
        "replay_cmd_template": "./bin/goircsa -explain {path}",
        "engine": "goircsa",
        "level_claimed": {"category": "other", "text": text, "design_ref": ref},
        "level_note": note,
        "technique": tech,
    })
props = [json.loads(l)["id"] for l in open("/verif/properties.jsonl")]
na = []
for pid in props:
    if pid in CLAIMED:
        continue
    na.append({"property_id": pid, "reason": NOT_APPLICABLE.get(pid, "no sound static rule built for this property in this revision (see DESIGN.md section 7)")})
m = {
    "version": 1,
    "setup_cmd": "cd /verif/sa && env %s go build -o /verif/bin/goircsa ./cmd/goircsa" % ENV,
    "hooks": {
        "guard": "verif",
        "enable": "none: static analysis needs no instrumentation; checks load /repo with the default build tags (thorough tier also with -tags verif)",
        "baseline_off_cmd": "cd /repo && go test -mod=mod -json -vet=off -count=1 -timeout 25m ./...",
        "source_commits": [],
        "add_only": True,
    },
    "engines": [{
        "name": "goircsa", "path": "/verif/sa",
        "serves_properties": sorted(CLAIMED),
        "kind_free_text": "repository-specific static analyser over go/types + go/ssa (x/tools v0.29.0): CFG path queries, goroutine/channel/WaitGroup topology, lockset, value-flow/taint with string abstraction, linear-fact bounds prover, path-protocol automata; no goirc code is executed",
    }],
    "checks": checks,
    "not_applicable": na,
    "notes": "All verdicts are computed statically from /repo's working tree on every run. level 'other': obligations/discharged are measured counts of rule instances; no proof level is claimed because the analyser is unverified. Genuine defects found are repaired by fix: commits in /repo or listed in known_findings.json (see DESIGN.md section 6).",
}
json.dump(m, open("/verif/MANIFEST.json", "w"), indent=1)
print("claimed", sorted(CLAIMED), "n/a", [x["property_id"] for x in na])
